package main

// rules_c19.go — C19: escaping and normalisation utilities (DESIGN 3/C19). Structural clauses only.
//
//	C19-V every byte URLEscape passes through verbatim has been examined and is allowed (subsumes the
//	      percent-triple rule C19-H); rewriting arms write only escaped material
//	C19-X a derived BytesFilter shares no bucket memory with its parent or siblings
//	C19-T lookup tables: pass-through table of URLEscape, UTF-8 length classes, HTML escape table (=C03-T)
//	C19-R numeric references go through the code-point validator before being encoded
//	C19-W / C19-B / C19-E = C12-W, C12-B, C03-E (arguments never written; EscapeHTML total over its table)

import (
	"fmt"
	"go/token"
	"go/types"
	"sort"
	"strings"

	"golang.org/x/tools/go/ssa"
)

func init() {
	register(&Property{
		ID:      "C19",
		Level:   "other",
		Explain: "Decides structural necessary conditions of the laws: (V) in URLEscape every loop cycle that leaves bytes in place (the copy mark does not move) advances by a constant number of bytes, and each of those bytes has been tested on that path by predicates that — evaluated here for all 256 byte values from the source's own tables and predicate bodies — admit only unreserved ASCII, '%' followed by two hex digits, or bytes that cannot start a UTF-8 sequence; every other cycle moves the copy mark and writes only the pending verbatim range, constant escapes or url.QueryEscape output: so the output has no space, control, quote or angle byte, every kept '%' is a valid triple, and valid UTF-8 comes out as ASCII; (X) Extend/ExtendString store only exclusively owned bucket slices into the derived filter, and Add appends only to a bucket of its own receiver; (T) the pass-through table, the UTF-8 length table and the HTML escape table have exactly the required classes and are never written; (R) every code point decoded from a numeric reference passes the validator (0 and invalid code points become U+FFFD) before it is encoded; (W,B) no util function writes into its argument (= C12-W/B); (E) EscapeHTML replaces every byte that has a table entry (= C03-E). Not decided: idempotence of URLEscape, decoding back to the input, UTF-8 validity of resolver output in general, case folding and whitespace collapsing, set semantics of BytesFilter beyond aliasing.",
		Trusted: []string{"url.QueryEscape emits only unreserved ASCII, '+' and %XX", "utf8.ValidRune"},
		Assumes: []string{"none beyond Go semantics"},
		Rules: []func(*World, *Report){ruleVerbatimBytesSafe, ruleFilterNoAliasing, ruleFilterDerivationComplete, ruleMembershipByBytes, ruleFoldingLooksEveryRuneUp, ruleRewritersReturnBuffer, ruleWideGuards, ruleLabelNormalisation, ruleCaseFoldingTable, ruleUtilTables, ruleEscapeTable, ruleValidRune,
			ruleByteWriteSites, ruleCopyOnWrite, ruleSanitiserLoops},
	})
}

// ---- byte-level evaluation of SSA conditions --------------------------------------------------------

type byteEnv struct {
	w    *World
	base ssa.Value   // the scanned slice
	idx  ssa.Value   // the loop index
	vals map[int]int // offset -> byte value
	// extra binds further SSA values (e.g. the result of a Peek() call) to a byte value
	extra map[ssa.Value]int64
}

func (e *byteEnv) offsetOf(index ssa.Value) (int, bool) {
	index = stripConv(index)
	if e.idx == nil {
		// no running index: constant offsets from the start of the slice
		if c, ok := constInt(index); ok {
			return int(c), true
		}
		return 0, false
	}
	if index == e.idx {
		return 0, true
	}
	if b, ok := index.(*ssa.BinOp); ok && b.Op == token.ADD {
		if stripConv(b.X) == e.idx {
			if c, ok := constInt(b.Y); ok {
				return int(c), true
			}
		}
		if stripConv(b.Y) == e.idx {
			if c, ok := constInt(b.X); ok {
				return int(c), true
			}
		}
	}
	return 0, false
}

func truncTo(t types.Type, x int64) int64 {
	if b, ok := t.Underlying().(*types.Basic); ok {
		switch b.Kind() {
		case types.Uint8:
			return x & 0xff
		case types.Int8:
			return int64(int8(x))
		case types.Uint16:
			return x & 0xffff
		case types.Int16:
			return int64(int16(x))
		}
	}
	return x
}

func (e *byteEnv) eval(v ssa.Value) (int64, bool) {
	if e.extra != nil {
		if x, ok := e.extra[v]; ok {
			return x, true
		}
	}
	switch x := v.(type) {
	case *ssa.Const:
		if b, ok := constBool(x); ok {
			if b {
				return 1, true
			}
			return 0, true
		}
		return constInt(x)
	case *ssa.Convert:
		y, ok := e.eval(x.X)
		if !ok {
			return 0, false
		}
		return truncTo(x.Type(), y), true
	case *ssa.ChangeType:
		return e.eval(x.X)
	case *ssa.UnOp:
		switch x.Op {
		case token.NOT:
			y, ok := e.eval(x.X)
			return 1 - y, ok
		case token.SUB:
			y, ok := e.eval(x.X)
			return -y, ok
		case token.MUL:
			ia, ok := x.X.(*ssa.IndexAddr)
			if !ok {
				return 0, false
			}
			if ia.X == e.base {
				off, ok := e.offsetOf(ia.Index)
				if !ok {
					return 0, false
				}
				val, has := e.vals[off]
				return int64(val), has
			}
			if g, ok := ia.X.(*ssa.Global); ok {
				tbl, ok := e.w.constIntTable(g.Object())
				if !ok {
					return 0, false
				}
				i, ok := e.eval(ia.Index)
				if !ok || i < 0 || int(i) >= len(tbl) {
					return 0, false
				}
				return tbl[i], true
			}
		}
	case *ssa.BinOp:
		a, ok1 := e.eval(x.X)
		b, ok2 := e.eval(x.Y)
		if !ok1 || !ok2 {
			return 0, false
		}
		bv := func(c bool) (int64, bool) {
			if c {
				return 1, true
			}
			return 0, true
		}
		switch x.Op {
		case token.ADD:
			return truncTo(x.Type(), a+b), true
		case token.SUB:
			return truncTo(x.Type(), a-b), true
		case token.AND:
			return a & b, true
		case token.OR:
			return a | b, true
		case token.XOR:
			return a ^ b, true
		case token.SHL:
			return truncTo(x.Type(), a<<uint(b)), true
		case token.SHR:
			return a >> uint(b), true
		case token.EQL:
			return bv(a == b)
		case token.NEQ:
			return bv(a != b)
		case token.LSS:
			return bv(a < b)
		case token.LEQ:
			return bv(a <= b)
		case token.GTR:
			return bv(a > b)
		case token.GEQ:
			return bv(a >= b)
		}
	case *ssa.Call:
		cal := x.Common().StaticCallee()
		if cal != nil && cal.String() == "unicode/utf8.RuneStart" && len(x.Common().Args) == 1 {
			a, ok := e.eval(x.Common().Args[0])
			if !ok {
				return 0, false
			}
			if a&0xC0 != 0x80 {
				return 1, true
			}
			return 0, true
		}
		if cal != nil && e.w.InModule(cal) && len(x.Common().Args) >= 2 {
			return e.evalWindowPredicate(x, cal)
		}
		if cal == nil || len(x.Common().Args) != 1 || !e.w.InModule(cal) {
			return 0, false
		}
		fo, ok := cal.Object().(*types.Func)
		if !ok {
			return 0, false
		}
		a, ok := e.eval(x.Common().Args[0])
		if !ok || a < 0 || a > 255 {
			return 0, false
		}
		res, err := e.w.evalBytePredicateFunc(fo, int(a))
		if err != "" {
			return 0, false
		}
		if res {
			return 1, true
		}
		return 0, true
	}
	return 0, false
}

// evalWindowPredicate evaluates a call of a module predicate over the scanned slice and an index (a window test
// extracted into a helper, e.g. isPercentEncoded(v, i)): the callee's body is explored with its slice parameter bound
// to the scanned slice and its index parameter bound to the caller's index (plus a constant), following both successors
// where a condition cannot be evaluated; the result is known when every reachable return yields the same known value.
func (e *byteEnv) evalWindowPredicate(c *ssa.Call, cal *ssa.Function) (int64, bool) {
	if cal.Blocks == nil || cal.Signature.Results().Len() != 1 || !isBool(cal.Signature.Results().At(0).Type()) {
		return 0, false
	}
	bi, ii, shift := -1, -1, 0
	for ai, a := range c.Common().Args {
		if ai >= len(cal.Params) {
			return 0, false
		}
		if a == e.base {
			bi = ai
		} else if off, ok := e.offsetOf(a); ok {
			ii, shift = ai, off
		}
	}
	if bi < 0 || ii < 0 {
		return 0, false
	}
	child := &byteEnv{w: e.w, base: cal.Params[bi], idx: cal.Params[ii], vals: map[int]int{}}
	for off, v := range e.vals {
		child.vals[off-shift] = v
	}
	var results []int64
	unknown := false
	var path []*ssa.BasicBlock
	steps := 0
	var walk func(b *ssa.BasicBlock)
	walk = func(b *ssa.BasicBlock) {
		steps++
		if unknown || steps > 400 {
			unknown = true
			return
		}
		for _, p := range path {
			if p == b {
				unknown = true // a loop: give up
				return
			}
		}
		path = append(path, b)
		defer func() { path = path[:len(path)-1] }()
		for _, ins := range b.Instrs {
			switch ins.(type) {
			case *ssa.Store, *ssa.MapUpdate, *ssa.Go, *ssa.Defer, *ssa.Send, *ssa.Panic:
				unknown = true
				return
			}
		}
		switch t := b.Instrs[len(b.Instrs)-1].(type) {
		case *ssa.Return:
			v, ok := child.eval(resolveAlong(t.Results[0], path))
			if !ok {
				unknown = true
				return
			}
			results = append(results, v)
		case *ssa.If:
			v, ok := child.eval(resolveAlong(t.Cond, path))
			if ok {
				if v != 0 {
					walk(b.Succs[0])
				} else {
					walk(b.Succs[1])
				}
				return
			}
			walk(b.Succs[0])
			walk(b.Succs[1])
		case *ssa.Jump:
			walk(b.Succs[0])
		default:
			unknown = true
		}
	}
	walk(cal.Blocks[0])
	if unknown || len(results) == 0 {
		return 0, false
	}
	for _, r := range results[1:] {
		if r != results[0] {
			return 0, false
		}
	}
	return results[0], true
}

// acceptedAt: the byte values at `offset` compatible with all branch facts of the path.
func (e *byteEnv) acceptedAt(offset int, facts []CondFact) [256]bool {
	var out [256]bool
	for c := 0; c < 256; c++ {
		e.vals = map[int]int{offset: c}
		ok := true
		for _, f := range facts {
			val, known := e.eval(f.C())
			if known && (val != 0) != f.Truth {
				ok = false
				break
			}
		}
		out[c] = ok
	}
	return out
}

func byteSetString(s [256]bool) string {
	var parts []string
	for c := 0; c < 256; {
		if !s[c] {
			c++
			continue
		}
		d := c
		for d+1 < 256 && s[d+1] {
			d++
		}
		f := func(x int) string {
			if x > 0x20 && x < 0x7f {
				return fmt.Sprintf("%q", rune(x))
			}
			return fmt.Sprintf("0x%02x", x)
		}
		if d == c {
			parts = append(parts, f(c))
		} else {
			parts = append(parts, f(c)+"-"+f(d))
		}
		c = d + 1
		if len(parts) > 12 {
			parts = append(parts, "…")
			break
		}
	}
	return "{" + strings.Join(parts, ",") + "}"
}

// bytes that may appear verbatim in URLEscape output
func urlVerbatimAllowed(c int) bool {
	switch {
	case c <= 0x20 || c == 0x7f:
		return false
	case c == '"' || c == '<' || c == '>' || c == '%':
		return false
	case c < 0x80:
		return true
	default:
		// bytes that cannot start a UTF-8 sequence (only reachable on invalid UTF-8)
		return c <= 0xbf || c == 0xc0 || c == 0xc1 || c >= 0xf5
	}
}

func isHexByte(c int) bool {
	return (c >= '0' && c <= '9') || (c >= 'a' && c <= 'f') || (c >= 'A' && c <= 'F')
}

func ruleVerbatimBytesSafe(w *World, r *Report) {
	r.Rule("C19-V", "In util.URLEscape's scanning loop every cycle header→header is classified by what it does to the copy mark n. VERBATIM cycles (n unchanged: the bytes stay in the output as they are) must advance the index by a constant k, and for each of the k bytes the branch facts of that path — evaluated for all 256 values using the source's own constant tables and one-byte predicate functions — must admit only: unreserved/reserved printable ASCII other than space, control, '\"', '<', '>', '%'; or '%' at offset 0 with hex digits at offsets 1 and 2; or bytes that cannot start a UTF-8 sequence. REWRITING cycles (n := new index) may write only the pending range v[n:i], constant escapes free of forbidden bytes, or url.QueryEscape output.")
	fn := w.PkgFunc("util", "URLEscape")
	if fn == nil || fn.Blocks == nil {
		r.Unknown("util.URLEscape", "", "function not found")
		return
	}
	loops, _ := naturalLoops(fn)
	nLoops := 0
	for li, l := range loops {
		if isRangeLoop(l) {
			continue
		}
		var phis []*ssa.Phi
		for _, ins := range l.header.Instrs {
			if p, ok := ins.(*ssa.Phi); ok {
				phis = append(phis, p)
			}
		}
		// index phi: used as IndexAddr index into a []byte inside the loop; base = that slice
		var idx, mark *ssa.Phi
		var base ssa.Value
		for _, p := range phis {
			for _, ref := range referrersOf(p) {
				if ia, ok := ref.(*ssa.IndexAddr); ok && l.body[ia.Block()] && stripConv(ia.Index) == ssa.Value(p) && isByteSlice(ia.X.Type()) {
					idx, base = p, ia.X
				}
			}
		}
		if idx == nil {
			continue
		}
		for _, p := range phis {
			if p == idx {
				continue
			}
			for _, ref := range referrersOf(p) {
				if sl, ok := ref.(*ssa.Slice); ok && sl.X == base && sl.Low == ssa.Value(p) {
					mark = p
				}
			}
		}
		if mark == nil {
			continue
		}
		nLoops++
		key := fmt.Sprintf("util.URLEscape loop #%d", li+1)
		env := &byteEnv{w: w, base: base, idx: idx}
		nCycles, nVerb, nRew := 0, 0, 0
		var path []*ssa.BasicBlock
		on := map[*ssa.BasicBlock]bool{}
		overflow := false
		var dfs func(b *ssa.BasicBlock)
		dfs = func(b *ssa.BasicBlock) {
			if overflow {
				return
			}
			path = append(path, b)
			on[b] = true
			defer func() { path = path[:len(path)-1]; on[b] = false }()
			for _, s := range b.Succs {
				if s == l.header {
					nCycles++
					if nCycles > maxPaths {
						overflow = true
						return
					}
					full := append(append([]*ssa.BasicBlock{}, path...), l.header)
					w.checkURLCycle(r, key, nCycles, l, idx, mark, env, full, &nVerb, &nRew)
					continue
				}
				if !l.body[s] || on[s] {
					continue
				}
				dfs(s)
			}
		}
		dfs(l.header)
		if overflow {
			r.Unknown(key, w.blockPos(l.header), "more than 4096 cycles")
		}
		r.Quiet("C19-V %s: %d cycles (%d verbatim, %d rewriting)", key, nCycles, nVerb, nRew)
		r.Expect("verbatim cycles in "+key, nVerb, 1)
		r.Expect("rewriting cycles in "+key, nRew, 1)
	}
	r.Expect("scanning loops with index and copy mark in URLEscape", nLoops, 1)
}

// factsAlong collects the branch facts of the path (the last element is the header closing the cycle).
func factsAlong(full []*ssa.BasicBlock) []CondFact {
	var out []CondFact
	for i := 0; i+1 < len(full); i++ {
		b := full[i]
		iff, ok := b.Instrs[len(b.Instrs)-1].(*ssa.If)
		if !ok || len(b.Succs) != 2 || b.Succs[0] == b.Succs[1] {
			continue
		}
		// a condition computed as a value (`a && b` in a switch case) arrives as a phi: resolve it along the path, so
		// that the short-circuit outcome (constant false) prunes the infeasible route and the last conjunct is a fact
		out = append(out, CondFact{iff, b.Succs[0] == full[i+1], resolveAlong(iff.Cond, full[:i+1])})
	}
	return out
}

func (w *World) checkURLCycle(r *Report, key string, num int, l *natLoop, idx, mark *ssa.Phi, env *byteEnv, full []*ssa.BasicBlock, nVerb, nRew *int) {
	path := full[:len(full)-1]
	last := path[len(path)-1]
	inc := func(p *ssa.Phi) ssa.Value {
		for pi, pr := range l.header.Preds {
			if pr == last {
				return resolveAlong(p.Edges[pi], path)
			}
		}
		return nil
	}
	iNew, nNew := inc(idx), inc(mark)
	facts := factsAlong(full)
	var blocks []string
	for _, b := range path {
		blocks = append(blocks, fmt.Sprint(b.Index))
	}
	ckey := fmt.Sprintf("%s: cycle via blocks %s", key, strings.Join(blocks, ","))
	pos := w.blockPos(last)
	// infeasible paths (contradictory byte facts) are skipped
	acc0 := env.acceptedAt(0, facts)
	any0 := false
	for _, b := range acc0 {
		if b {
			any0 = true
		}
	}
	if !any0 {
		r.Quiet("C19-V %s: infeasible (no byte value satisfies its branch facts)", ckey)
		return
	}
	if nNew == ssa.Value(mark) {
		*nVerb++
		// verbatim: constant step
		k := int64(-1)
		if b, ok := stripConv(iNew).(*ssa.BinOp); ok && b.Op == token.ADD {
			if stripConv(b.X) == ssa.Value(idx) {
				if c, ok := constInt(b.Y); ok {
					k = c
				}
			} else if stripConv(b.Y) == ssa.Value(idx) {
				if c, ok := constInt(b.X); ok {
					k = c
				}
			}
		}
		if k < 1 || k > 8 {
			r.Bad(ckey, pos, "bytes are left in the output verbatim but the index does not advance by a small constant on this path: the skipped bytes are not examined one by one")
			return
		}
		for j := 0; j < int(k); j++ {
			acc := acc0
			if j > 0 {
				acc = env.acceptedAt(j, facts)
			}
			var badSet [256]bool
			nb := 0
			for c := 0; c < 256; c++ {
				if !acc[c] {
					continue
				}
				ok := urlVerbatimAllowed(c)
				if j == 0 && c == '%' && k == 3 {
					ok = true
				}
				if j > 0 && acc0['%'] && k == 3 {
					// inside a percent triple: hex digits only (when the first byte can be '%')
					ok = isHexByte(c)
				}
				if !ok {
					badSet[c] = true
					nb++
				}
			}
			if nb > 0 {
				r.Bad(ckey, pos, fmt.Sprintf("verbatim pass-through of %d byte(s): at offset %d the path admits %s, which must not appear unescaped in URLEscape output (or inside a %%XX triple)", k, j, byteSetString(badSet)))
				return
			}
		}
		r.OK(ckey, pos, fmt.Sprintf("verbatim step %d; offset 0 admits %s", k, byteSetString(acc0)))
		return
	}
	if nNew != nil && iNew != nil && sameValue(nNew, iNew) {
		*nRew++
		// rewriting: inspect the writes to the copy-on-write buffer along the path
		for _, b := range path {
			for _, ins := range b.Instrs {
				c, ok := ins.(*ssa.Call)
				if !ok {
					continue
				}
				cal := c.Common().StaticCallee()
				if cal == nil || cal.Signature.Recv() == nil {
					continue
				}
				rn := namedOf(cal.Signature.Recv().Type())
				if rn == nil || rn.Obj().Name() != "CopyOnWriteBuffer" {
					continue
				}
				if !strings.HasPrefix(cal.Name(), "Write") && cal.Name() != "Append" && cal.Name() != "AppendString" && cal.Name() != "AppendByte" {
					continue
				}
				arg := c.Common().Args[1]
				if ok, why := w.urlWriteArgOK(arg, env, mark, idx); !ok {
					r.Bad(ckey, w.InstrPos(ins), "rewriting arm writes "+why)
					return
				}
			}
		}
		r.OK(ckey, pos, "copy mark moves with the index; writes are the pending range, constant escapes or QueryEscape output")
		return
	}
	r.Unknown(ckey, pos, "the copy mark is neither kept nor moved to the new index on this path: not decided")
}

func (w *World) urlWriteArgOK(arg ssa.Value, env *byteEnv, mark, idx *ssa.Phi) (bool, string) {
	arg = stripConv(arg)
	switch x := arg.(type) {
	case *ssa.Slice:
		if x.X == env.base && x.Low == ssa.Value(mark) && x.High == ssa.Value(idx) {
			return true, ""
		}
		return false, "a range of the input other than the pending verbatim range v[n:i]"
	case *ssa.UnOp:
		if g, ok := x.X.(*ssa.Global); ok && x.Op == token.MUL {
			if s, ok := w.globalBytesLiteral(g); ok {
				for i := 0; i < len(s); i++ {
					c := int(s[i])
					if !urlVerbatimAllowed(c) && !(c == '%' && i+2 < len(s) && isHexByte(int(s[i+1])) && isHexByte(int(s[i+2]))) {
						return false, fmt.Sprintf("the constant %q, which contains a forbidden byte", s)
					}
				}
				return true, ""
			}
			return false, "a global that is not a constant byte literal"
		}
	case *ssa.Call:
		cal := x.Common().StaticCallee()
		if cal != nil && cal.String() == "net/url.QueryEscape" {
			return true, ""
		}
		if cal != nil && w.InModule(cal) && len(x.Common().Args) == 1 && (cal.Name() == "StringToReadOnlyBytes" || cal.Name() == "BytesToReadOnlyString") {
			return w.urlWriteArgOK(x.Common().Args[0], env, mark, idx)
		}
	case *ssa.Convert:
		return w.urlWriteArgOK(x.X, env, mark, idx)
	case *ssa.Const:
		if s, ok := constString(x); ok {
			for i := 0; i < len(s); i++ {
				if !urlVerbatimAllowed(int(s[i])) {
					return false, fmt.Sprintf("the constant %q", s)
				}
			}
			return true, ""
		}
		if c, ok := constInt(x); ok && urlVerbatimAllowed(int(c)) {
			return true, ""
		}
	}
	return false, "data that is neither the pending range, a constant escape nor url.QueryEscape output"
}

// ---- C19-X ---------------------------------------------------------------------------------------

// exclusiveSlice: v is a slice no other slice can share spare capacity with.
func exclusiveSlice(v ssa.Value, seen map[ssa.Value]bool) bool {
	if seen[v] {
		return true
	}
	seen[v] = true
	switch x := v.(type) {
	case *ssa.MakeSlice:
		return true
	case *ssa.Const:
		return x.IsNil()
	case *ssa.ChangeType:
		return exclusiveSlice(x.X, seen)
	case *ssa.Phi:
		for _, e := range x.Edges {
			if !exclusiveSlice(e, seen) {
				return false
			}
		}
		return true
	case *ssa.Slice:
		if _, ok := x.X.(*ssa.Alloc); ok {
			// slice of a fresh local array (composite literal)
			return len(referrersOf(x.X)) <= 3
		}
		if x.Max != nil && x.High != nil && sameValue(x.Max, x.High) {
			return true // capped: append must reallocate
		}
		if ms, ok := x.X.(*ssa.MakeSlice); ok {
			n := 0
			for _, ref := range referrersOf(ms) {
				if _, isDbg := ref.(*ssa.DebugRef); !isDbg {
					n++
				}
			}
			return n == 1
		}
		return false
	case *ssa.Call:
		if builtinName(x.Common()) == "append" {
			return exclusiveSlice(x.Common().Args[0], seen)
		}
	}
	return false
}

func ruleFilterNoAliasing(w *World, r *Report) {
	r.Rule("C19-X", "For every module type implementing util.BytesFilter: a bucket slice stored into the bucket table of an object other than the method's receiver (the derived filter built by Extend/ExtendString) must be exclusively owned — made by make (used once), nil, an append to such, or capped s[a:b:b] — never the parent's bucket and never a plain sub-slice of a shared backing array whose spare capacity overlaps a neighbour; a bucket stored into the receiver's own table (Add) must be an append to the bucket loaded from the same receiver or to a fresh one.")
	it := w.Iface("util", "BytesFilter")
	n := 0
	for _, t := range w.Implementers(it) {
		for _, m := range w.methodsOfType(t) {
			if len(m.Params) == 0 {
				continue
			}
			recv := m.Params[0]
			for _, b := range m.Blocks {
				for _, ins := range b.Instrs {
					st, ok := ins.(*ssa.Store)
					if !ok {
						continue
					}
					ia, ok := st.Addr.(*ssa.IndexAddr)
					if !ok {
						continue
					}
					// element of a slice-of-slices field of the filter type
					ld, ok := ia.X.(*ssa.UnOp)
					if !ok || ld.Op != token.MUL {
						continue
					}
					fa, ok := ld.X.(*ssa.FieldAddr)
					if !ok {
						continue
					}
					if nt := namedOf(fa.X.Type()); nt == nil || nt.Obj() != t.Obj() {
						continue
					}
					if _, isSl := st.Val.Type().Underlying().(*types.Slice); !isSl {
						continue
					}
					n++
					own := fa.X == ssa.Value(recv)
					key := fmt.Sprintf("(*%s).%s: bucket store #%d", t.Obj().Name(), m.Name(), n)
					if own {
						// append(slot, …) with slot loaded from the receiver's own table or fresh
						okOwn := true
						why := ""
						c, isCall := st.Val.(*ssa.Call)
						if !isCall || builtinName(c.Common()) != "append" {
							if !exclusiveSlice(st.Val, map[ssa.Value]bool{}) {
								okOwn, why = false, "the stored bucket is neither an append nor a fresh slice"
							}
						} else {
							for _, leaf := range phiLeaves(c.Common().Args[0]) {
								if exclusiveSlice(leaf, map[ssa.Value]bool{}) {
									continue
								}
								u, ok := leaf.(*ssa.UnOp)
								if ok && u.Op == token.MUL {
									if ia2, ok := u.X.(*ssa.IndexAddr); ok {
										if ld2, ok := ia2.X.(*ssa.UnOp); ok {
											if fa2, ok := ld2.X.(*ssa.FieldAddr); ok && fa2.X == ssa.Value(recv) && fa2.Field == fa.Field {
												continue
											}
										}
									}
								}
								okOwn, why = false, "appends to a bucket that is not loaded from the receiver's own table"
							}
						}
						if okOwn {
							r.OK(key, w.InstrPos(ins), "own bucket: append to the receiver's bucket or a fresh slice")
						} else {
							r.Bad(key, w.InstrPos(ins), why)
						}
						continue
					}
					if exclusiveSlice(st.Val, map[ssa.Value]bool{}) {
						r.OK(key, w.InstrPos(ins), "the derived filter receives an exclusively owned bucket")
					} else {
						r.Bad(key, w.InstrPos(ins), "the derived filter's bucket table receives a slice that is not exclusively owned (the parent's bucket, or a sub-slice sharing spare capacity with other buckets): a later Add in one filter can overwrite entries seen by another")
					}
				}
			}
		}
	}
	r.Expect("bucket stores in BytesFilter implementations", n, 1)
}

// ---- C19-T ---------------------------------------------------------------------------------------

func ruleUtilTables(w *World, r *Report) {
	r.Rule("C19-T", "The constant tables behind URLEscape are evaluated from the syntax tree: the pass-through table marks no byte that is a space, control, '\"', '<', '>', '%', DEL or >= 0x80; the UTF-8 length table gives 1 for ASCII, 2/3/4 for the lead-byte ranges 0xC2–0xDF/0xE0–0xEF/0xF0–0xF4, 99 for continuation bytes and 0xF8–0xFF, and either for the bytes that never occur in valid UTF-8 (0xC0, 0xC1, 0xF5–0xF7). Neither table is written at run time (constIntTable refuses tables with writers).")
	fn := w.PkgFunc("util", "URLEscape")
	lenFn := w.PkgFunc("util", "UTF8Len")
	if fn == nil || lenFn == nil {
		r.Unknown("util.URLEscape / util.UTF8Len", "", "not found")
		return
	}
	globalsIndexed := func(f *ssa.Function) []*ssa.Global {
		var out []*ssa.Global
		seen := map[*ssa.Global]bool{}
		for _, b := range f.Blocks {
			for _, ins := range b.Instrs {
				if ia, ok := ins.(*ssa.IndexAddr); ok {
					if g, ok := ia.X.(*ssa.Global); ok && !seen[g] {
						seen[g] = true
						out = append(out, g)
					}
				}
			}
		}
		return out
	}
	lg := globalsIndexed(lenFn)
	if len(lg) != 1 {
		r.Unknown("UTF-8 length table", w.FnPos(lenFn), "UTF8Len does not index exactly one global table")
		return
	}
	lenTbl, ok := w.constIntTable(lg[0].Object())
	if !ok || len(lenTbl) != 256 {
		r.Unknown("UTF-8 length table "+lg[0].Name(), "", "not a constant 256-entry table (or written at run time)")
	} else {
		bad := ""
		for c := 0; c < 256 && bad == ""; c++ {
			var want []int64
			switch {
			case c < 0x80:
				want = []int64{1}
			case c < 0xc0:
				want = []int64{99}
			case c < 0xc2:
				want = []int64{99, 2} // 0xC0, 0xC1 never occur in valid UTF-8: invalid or the naive length
			case c < 0xe0:
				want = []int64{2}
			case c < 0xf0:
				want = []int64{3}
			case c < 0xf5:
				want = []int64{4}
			case c < 0xf8:
				want = []int64{99, 4} // 0xF5–0xF7 never occur in valid UTF-8
			default:
				want = []int64{99}
			}
			ok := false
			for _, x := range want {
				if lenTbl[c] == x {
					ok = true
				}
			}
			if !ok {
				bad = fmt.Sprintf("entry 0x%02x is %d, expected %v", c, lenTbl[c], want)
			}
		}
		if bad == "" {
			r.OK("UTF-8 length table "+lg[0].Name(), "", "256 entries match the UTF-8 lead-byte classes")
		} else {
			r.Bad("UTF-8 length table "+lg[0].Name(), "", bad)
		}
	}
	nPass := 0
	for _, g := range globalsIndexed(fn) {
		if g == lg[0] {
			continue
		}
		tbl, ok := w.constIntTable(g.Object())
		if !ok || len(tbl) != 256 {
			r.Unknown("table "+g.Name()+" used by URLEscape", "", "not a constant 256-entry table (or written at run time)")
			continue
		}
		nPass++
		var badSet [256]bool
		nb := 0
		for c := 0; c < 256; c++ {
			if tbl[c] != 0 && !urlVerbatimAllowed(c) {
				badSet[c] = true
				nb++
			}
		}
		if nb == 0 {
			r.OK("pass-through table "+g.Name(), "", "marks only printable ASCII other than space, quote, angle brackets and '%'")
		} else {
			r.Bad("pass-through table "+g.Name(), "", "marks "+byteSetString(badSet)+" as pass-through")
		}
	}
	r.Expect("pass-through tables of URLEscape", nPass, 1)
}

// ---- C19-R ---------------------------------------------------------------------------------------

func ruleValidRune(w *World, r *Report) {
	r.Rule("C19-R", "Every rune that is derived from a strconv.Parse* result (a decoded numeric character reference) and is encoded or written (utf8.EncodeRune, utf8.AppendRune, WriteRune, or a module callee that does so with its parameter) is the direct result of the validator util.ToValidRune; and the validator returns its argument only when it is non-zero and utf8.ValidRune holds, the replacement character otherwise.")
	valid := w.PkgFunc("util", "ToValidRune")
	if valid == nil {
		r.Unknown("util.ToValidRune", "", "not found")
		return
	}
	// validator shape
	shapeOK := false
	var retParamBlocks []*ssa.BasicBlock
	for _, b := range valid.Blocks {
		if rt, ok := b.Instrs[len(b.Instrs)-1].(*ssa.Return); ok && len(rt.Results) == 1 {
			if rt.Results[0] == ssa.Value(valid.Params[0]) {
				retParamBlocks = append(retParamBlocks, b)
			} else if c, ok := constInt(rt.Results[0]); !ok || c != 0xFFFD {
				retParamBlocks = append(retParamBlocks, nil)
			}
		}
	}
	if len(retParamBlocks) == 1 && retParamBlocks[0] != nil {
		nz, vr := false, false
		for _, cf := range dominatingConds(retParamBlocks[0]) {
			for _, a := range condAtoms(cf.If.Cond, cf.Truth) {
				if b, ok := a.V.(*ssa.BinOp); ok && stripConv(b.X) == ssa.Value(valid.Params[0]) {
					if c, ok := constInt(b.Y); ok && c == 0 && ((b.Op == token.EQL && !a.Truth) || (b.Op == token.NEQ && a.Truth)) {
						nz = true
					}
				}
				if c, ok := a.V.(*ssa.Call); ok && a.Truth {
					if cal := c.Common().StaticCallee(); cal != nil && cal.String() == "unicode/utf8.ValidRune" && c.Common().Args[0] == ssa.Value(valid.Params[0]) {
						vr = true
					}
				}
			}
		}
		shapeOK = nz && vr
	}
	if shapeOK {
		r.OK("util.ToValidRune: shape", w.FnPos(valid), "returns its argument only under v != 0 && utf8.ValidRune(v); U+FFFD otherwise")
	} else {
		r.Bad("util.ToValidRune: shape", w.FnPos(valid), "the validator does not return its argument exclusively under v != 0 && utf8.ValidRune(v) with U+FFFD as the only other result")
	}
	// rune sinks
	isRuneSink := func(c ssa.CallInstruction) (ssa.Value, bool) {
		com := c.Common()
		if com.IsInvoke() {
			if (com.Method.Name() == "WriteRune" || com.Method.Name() == "WriteByte") && len(com.Args) == 1 {
				return com.Args[0], true
			}
			return nil, false
		}
		cal := com.StaticCallee()
		if cal == nil {
			return nil, false
		}
		if (cal.Name() == "WriteByte" || cal.Name() == "AppendByte") && cal.Signature.Recv() != nil && len(com.Args) == 2 {
			return com.Args[1], true // a code point narrowed to a byte and written as such
		}
		switch cal.String() {
		case "unicode/utf8.EncodeRune", "unicode/utf8.AppendRune":
			return com.Args[1], true
		case "(*bytes.Buffer).WriteRune", "(*strings.Builder).WriteRune", "(*bufio.Writer).WriteRune":
			return com.Args[1], true
		}
		return nil, false
	}
	parseFns := map[*ssa.Function]bool{}       // module helpers that hand back a parsed number (an extracted digit-run reader)
	taintedParams := map[*ssa.Parameter]bool{} // parameters of module helpers that receive a parsed number at some call site
	fromParse := func(v ssa.Value) bool {
		found := false
		operandsClosure(v, func(x ssa.Value) bool {
			if p, ok := x.(*ssa.Parameter); ok && taintedParams[p] {
				found = true
				return false
			}
			if c, ok := x.(*ssa.Call); ok {
				cal := c.Common().StaticCallee()
				if cal != nil && (strings.HasPrefix(cal.String(), "strconv.Parse") || cal.String() == "strconv.Atoi" || parseFns[cal]) {
					found = true
					return false
				}
			}
			return true
		})
		return found
	}
	for round := 0; round < 2; round++ {
		for _, fn := range w.Funcs {
			if parseFns[fn] {
				continue
			}
			for _, b := range fn.Blocks {
				if rt, ok := b.Instrs[len(b.Instrs)-1].(*ssa.Return); ok {
					for _, res := range rt.Results {
						if isInteger(res.Type()) && fromParse(res) {
							parseFns[fn] = true
						}
					}
				}
			}
		}
	}
	// parsed numbers handed to module helpers (an extracted "write this code point" helper): the obligation follows
	// the value into the helper's body
	for round := 0; round < 3; round++ {
		for _, fn := range w.Funcs {
			for _, b := range fn.Blocks {
				for _, ins := range b.Instrs {
					c, ok := ins.(ssa.CallInstruction)
					if !ok {
						continue
					}
					cal := c.Common().StaticCallee()
					if cal == nil || !w.InModule(cal) || cal == valid || cal.Blocks == nil {
						continue
					}
					for i, a := range c.Common().Args {
						if i < len(cal.Params) && isInteger(a.Type()) && fromParse(a) {
							if vc, isCall := stripConv(a).(*ssa.Call); isCall && vc.Common().StaticCallee() == valid {
								continue // already validated
							}
							taintedParams[cal.Params[i]] = true
						}
					}
				}
			}
		}
	}
	// module functions that write their rune parameter raw (one level): escapeRune-like helpers
	runeParamSinks := map[*ssa.Function]int{}
	for _, fn := range w.Funcs {
		for _, b := range fn.Blocks {
			for _, ins := range b.Instrs {
				c, ok := ins.(ssa.CallInstruction)
				if !ok {
					continue
				}
				if arg, ok := isRuneSink(c); ok {
					if p, ok := stripConv(arg).(*ssa.Parameter); ok {
						runeParamSinks[fn] = paramIndex(fn, p)
					}
				}
			}
		}
	}
	n := 0
	for _, fn := range w.Funcs {
		for _, b := range fn.Blocks {
			for _, ins := range b.Instrs {
				c, ok := ins.(ssa.CallInstruction)
				if !ok {
					continue
				}
				var arg ssa.Value
				if a, ok := isRuneSink(c); ok {
					arg = a
				} else if cal := c.Common().StaticCallee(); cal != nil {
					if pi, ok := runeParamSinks[cal]; ok && pi < len(c.Common().Args) {
						arg = c.Common().Args[pi]
					}
				}
				if arg == nil || !fromParse(arg) {
					continue
				}
				if pi, isSink := runeParamSinks[fn]; isSink {
					if p, isP := stripConv(arg).(*ssa.Parameter); isP && paramIndex(fn, p) == pi && !taintedParams[p] {
						continue
					}
				}
				n++
				key := fmt.Sprintf("%s: decoded code point #%d", w.FnKey(fn), n)
				vc, isCall := stripConv(arg).(*ssa.Call)
				if isCall && vc.Common().StaticCallee() == valid {
					r.OK(key, w.InstrPos(ins), "passes util.ToValidRune")
				} else {
					r.Bad(key, w.InstrPos(ins), "a code point parsed from a numeric reference is encoded without passing util.ToValidRune: out-of-range values and 0 do not become U+FFFD")
				}
			}
		}
	}
	r.Expect("encodings of parsed code points", n, 1)
	_ = sort.Strings
}

// ---- C19-S: a derived filter carries over everything membership depends on -----------------------------------

// fieldRootedAt: addr is FieldAddr(obj, F) or an element address reached through a load of it; returns F.
func fieldRootedAt(addr ssa.Value, isObj func(ssa.Value) bool) *types.Var {
	for depth := 0; depth < 6; depth++ {
		switch x := addr.(type) {
		case *ssa.FieldAddr:
			if isObj(x.X) {
				_, f := fieldOfAddr(x)
				return f
			}
			addr = x.X
		case *ssa.IndexAddr:
			addr = x.X
		case *ssa.UnOp:
			if x.Op != token.MUL {
				return nil
			}
			addr = x.X
		default:
			return nil
		}
	}
	return nil
}

func ruleFilterDerivationComplete(w *World, r *Report) {
	r.Rule("C19-S", "For every module type T implementing util.BytesFilter: every field of T that the membership test Contains (and the same-receiver methods it calls) reads is carried over by every deriving method (a method of T other than Add/Contains that returns a BytesFilter built from the receiver, i.e. Extend and ExtendString): the method stores into that field of the object it returns (or into its elements). A field that only Add maintains is then missing whatever the parent had accumulated, and keys of the parent are reported absent in the derived filter. The deriving methods are also cross-checked against each other (siblings carry the same set).")
	it := w.Iface("util", "BytesFilter")
	nDeriv := 0
	for _, t := range w.Implementers(it) {
		st, ok := t.Underlying().(*types.Struct)
		if !ok {
			continue
		}
		_ = st
		// fields read by Contains (transitively through same-receiver calls)
		reads := map[*types.Var]bool{}
		seen := map[*ssa.Function]bool{}
		var collect func(fn *ssa.Function)
		collect = func(fn *ssa.Function) {
			if fn == nil || seen[fn] || len(fn.Params) == 0 {
				return
			}
			seen[fn] = true
			recv := fn.Params[0]
			for _, b := range fn.Blocks {
				for _, ins := range b.Instrs {
					switch x := ins.(type) {
					case *ssa.FieldAddr:
						if x.X == ssa.Value(recv) {
							_, f := fieldOfAddr(x)
							reads[f] = true
						}
					case ssa.CallInstruction:
						if cal := x.Common().StaticCallee(); cal != nil && len(x.Common().Args) > 0 && x.Common().Args[0] == ssa.Value(recv) && cal.Signature.Recv() != nil {
							collect(cal)
						}
					}
				}
			}
		}
		contains := w.MethodOf(t, "Contains")
		if contains == nil {
			r.Unknown(typeShort(t)+": Contains", "", "method not found")
			continue
		}
		collect(contains)
		carriedBy := map[string]map[*types.Var]bool{}
		for _, m := range w.methodsOfType(t) {
			if len(m.Params) == 0 || m == contains || m.Signature.Results().Len() != 1 {
				continue
			}
			if !types.Identical(m.Signature.Results().At(0).Type(), w.Obj("util", "BytesFilter").Type()) {
				continue
			}
			carried := map[*types.Var]bool{}
			seenC := map[*ssa.Function]bool{}
			var carry func(fn *ssa.Function)
			carry = func(fn *ssa.Function) { // fn and the same-receiver helpers it calls (a shared clone helper)
				if fn == nil || seenC[fn] || len(fn.Params) == 0 || len(seenC) > 8 {
					return
				}
				seenC[fn] = true
				recv := fn.Params[0]
				isNew := func(v ssa.Value) bool {
					return v != ssa.Value(recv) && namedOf(v.Type()) == t
				}
				for _, b := range fn.Blocks {
					for _, ins := range b.Instrs {
						switch x := ins.(type) {
						case *ssa.Store:
							if f := fieldRootedAt(x.Addr, isNew); f != nil {
								carried[f] = true
							}
						case ssa.CallInstruction:
							if cal := x.Common().StaticCallee(); cal != nil && cal != contains && cal.Name() != "Add" && len(x.Common().Args) > 0 && x.Common().Args[0] == ssa.Value(recv) && cal.Signature.Recv() != nil {
								carry(cal)
							}
						}
					}
				}
			}
			carry(m)
			nDeriv++
			carriedBy[m.Name()] = carried
			key := w.FnKey(m) + ": carries every field Contains reads"
			var missing []string
			for f := range reads {
				if !carried[f] {
					missing = append(missing, f.Name())
				}
			}
			sort.Strings(missing)
			// the parent's state is copied in before any key is added: a whole-field overwrite of the derived filter after
			// keys went in (through Add, or through a constructor that was given elements) drops what those keys had set
			late := ""
			for _, b := range m.Blocks {
				for _, ins := range b.Instrs {
					st, ok := ins.(*ssa.Store)
					if !ok {
						continue
					}
					fa, ok := st.Addr.(*ssa.FieldAddr)
					if !ok || fa.X == ssa.Value(m.Params[0]) || namedOf(fa.X.Type()) != t {
						continue
					}
					_, f := fieldOfAddr(fa)
					if f == nil || !reads[f] {
						continue
					}
					obj := fa.X
					// key-adding events on obj that can run before the store
					for _, b2 := range m.Blocks {
						for _, i2 := range b2.Instrs {
							c, ok := i2.(*ssa.Call)
							if !ok {
								continue
							}
							adds := false
							if cal := c.Common().StaticCallee(); cal != nil && cal.Name() == "Add" && len(c.Common().Args) > 0 && sameObject(c.Common().Args[0], obj) {
								adds = true
							}
							if sameObject(c, obj) || producedBy(obj, c) {
								for _, a := range c.Common().Args {
									if cst, isC := a.(*ssa.Const); !isC || !cst.IsNil() {
										adds = true // a constructor that was handed elements
									}
								}
							}
							if !adds {
								continue
							}
							if (b2 == b && instrIndex(i2) < instrIndex(ins)) || (b2 != b && blockReaches(b2, b)) {
								late = fmt.Sprintf("%s: field %s of the derived filter is overwritten with the parent's after keys were added at %s", w.InstrPos(ins), f.Name(), w.InstrPos(i2))
							}
						}
					}
				}
			}
			if late != "" {
				r.Bad(key, w.FnPos(m), late+": whatever those keys had set in it is lost, and the membership test reports them absent")
			} else if len(missing) == 0 {
				r.OK(key, w.FnPos(m), fmt.Sprintf("%d field(s) read by the membership test, all stored into the derived filter before any key is added", len(reads)))
			} else {
				r.Bad(key, w.FnPos(m), fmt.Sprintf("the membership test reads %s, which this method never stores into the filter it returns: keys inherited from the parent can be reported absent", strings.Join(missing, ", ")))
			}
		}
	}
	r.Expect("deriving methods of BytesFilter implementations", nDeriv, 1)
}

// ---- C19-L: the label normaliser's pipeline ---------------------------------------------------------------------

type normFacts struct{ ltrim, rtrim, folded, collapsed bool }

func (a normFacts) meet(b normFacts) normFacts {
	return normFacts{a.ltrim && b.ltrim, a.rtrim && b.rtrim, a.folded && b.folded, a.collapsed && b.collapsed}
}

// ruleLabelNormalisation: what is known, step by step, about the value util.ToLinkReference returns.
func ruleLabelNormalisation(w *World, r *Report) {
	r.Rule("C19-L", "Typestate over the data path from the parameter of util.ToLinkReference to its result, with a table of what each step establishes and preserves: TrimLeftSpace / TrimRightSpace (and bytes.TrimSpace, bytes.TrimLeft/Right/Trim with the whole ASCII whitespace set) establish 'no whitespace at that end'; DoFullUnicodeCaseFolding establishes 'case-folded'; ReplaceSpaces(·, ' ') establishes 'inner runs collapsed' and preserves trimmed ends but does not establish them (it returns its input unchanged when the only run is a trailing one); conversions preserve everything; any other step forgets everything. The result must be trimmed at both ends, case-folded and collapsed — otherwise labels that differ only in surrounding whitespace, case, or inner runs are not identified.")
	fn := w.PkgFunc("util", "ToLinkReference")
	if fn == nil || len(fn.Params) != 1 {
		r.Unknown("util.ToLinkReference", "", "not found")
		return
	}
	memo := map[ssa.Value]normFacts{}
	var eval func(v ssa.Value, depth int) normFacts
	eval = func(v ssa.Value, depth int) normFacts {
		if f, ok := memo[v]; ok {
			return f
		}
		if depth > 32 {
			return normFacts{}
		}
		memo[v] = normFacts{} // cycles: pessimistic
		var out normFacts
		switch x := v.(type) {
		case *ssa.Parameter:
			out = normFacts{}
		case *ssa.Convert:
			out = eval(x.X, depth+1)
		case *ssa.ChangeType:
			out = eval(x.X, depth+1)
		case *ssa.Phi:
			for i, e := range x.Edges {
				f := eval(e, depth+1)
				if i == 0 {
					out = f
				} else {
					out = out.meet(f)
				}
			}
		case *ssa.Call:
			cal := x.Common().StaticCallee()
			if cal == nil || len(x.Common().Args) == 0 {
				break
			}
			in := eval(x.Common().Args[0], depth+1)
			allSpace := func(arg ssa.Value) bool { // cutset contains every ASCII whitespace byte util.IsSpace accepts
				s, ok := constString(arg)
				if !ok {
					return false
				}
				for _, c := range []byte{' ', '\t', '\n', '\r', '\f', '\v'} {
					if !strings.ContainsRune(s, rune(c)) {
						return false
					}
				}
				return true
			}
			switch cal.String() {
			case modPath + "/util.TrimLeftSpace":
				out, out.ltrim = in, true
			case modPath + "/util.TrimRightSpace":
				out, out.rtrim = in, true
			case "bytes.TrimSpace", "strings.TrimSpace":
				out = in
				out.ltrim, out.rtrim = true, true
			case "bytes.Trim", "strings.Trim":
				out = in
				if allSpace(x.Common().Args[1]) {
					out.ltrim, out.rtrim = true, true
				}
			case "bytes.TrimLeft", "strings.TrimLeft":
				out = in
				if allSpace(x.Common().Args[1]) {
					out.ltrim = true
				}
			case "bytes.TrimRight", "strings.TrimRight":
				out = in
				if allSpace(x.Common().Args[1]) {
					out.rtrim = true
				}
			case modPath + "/util.DoFullUnicodeCaseFolding":
				out, out.folded = in, true
			case modPath + "/util.ReplaceSpaces":
				out = in
				if c, ok := constInt(x.Common().Args[1]); ok && c == ' ' {
					out.collapsed = true
				}
			case modPath + "/util.BytesToReadOnlyString", modPath + "/util.StringToReadOnlyBytes":
				out = in
			}
		}
		memo[v] = out
		return out
	}
	n := 0
	for _, b := range fn.Blocks {
		ret, ok := b.Instrs[len(b.Instrs)-1].(*ssa.Return)
		if !ok || len(ret.Results) != 1 {
			continue
		}
		n++
		f := eval(ret.Results[0], 0)
		key := fmt.Sprintf("util.ToLinkReference: return #%d", n)
		var missing []string
		if !f.ltrim {
			missing = append(missing, "leading whitespace removed")
		}
		if !f.rtrim {
			missing = append(missing, "trailing whitespace removed")
		}
		if !f.folded {
			missing = append(missing, "Unicode case folding")
		}
		if !f.collapsed {
			missing = append(missing, "inner whitespace runs collapsed to one space")
		}
		if len(missing) == 0 {
			r.OK(key, w.InstrPos(ret), "trimmed at both ends, case-folded, collapsed")
		} else {
			r.Bad(key, w.InstrPos(ret), "the returned label is not known to be normalised: missing "+strings.Join(missing, "; ")+" (note: ReplaceSpaces leaves a trailing whitespace run untouched when it rewrote nothing before it, so trimming afterwards with a narrower set does not make up for it)")
		}
	}
	r.Expect("returns of util.ToLinkReference", n, 1)
}

// ---- C19-M ------------------------------------------------------------------------------------------

// ruleMembershipByBytes: Contains answers true only after comparing the key's bytes with a stored element.
func ruleMembershipByBytes(w *World, r *Report) {
	r.Rule("C19-M", "In every module implementation of util.BytesFilter.Contains, each return that can be true is the result of, or is dominated by the true edge of, bytes.Equal (or bytes.Compare == 0, or a string comparison) between the key parameter and a stored element. Hashes and per-position pre-filters may only say 'no': a filter that answers from a hash alone accepts a crafted attribute name that collides with an allowed one.")
	it := w.Iface("util", "BytesFilter")
	n := 0
	for _, t := range w.Implementers(it) {
		fn := w.MethodOf(t, "Contains")
		if fn == nil || !w.InModule(fn) || len(fn.Params) != 2 {
			continue
		}
		n++
		key := typeShort(t) + ".Contains decides by the bytes"
		keyP := fn.Params[1]
		isByteCompare := func(v ssa.Value) bool {
			switch x := v.(type) {
			case *ssa.Call:
				cal := x.Common().StaticCallee()
				if cal == nil {
					return false
				}
				if cal.String() == "bytes.Equal" {
					for _, a := range x.Common().Args {
						if stripConv(a) == ssa.Value(keyP) {
							return true
						}
					}
				}
			case *ssa.BinOp:
				if x.Op == token.EQL {
					// string(b) == string(e), or bytes.Compare(b, e) == 0
					for _, side := range []ssa.Value{x.X, x.Y} {
						if cv, ok := side.(*ssa.Convert); ok && cv.X == ssa.Value(keyP) {
							return true
						}
						if c, ok := side.(*ssa.Call); ok {
							if cal := c.Common().StaticCallee(); cal != nil && cal.String() == "bytes.Compare" {
								for _, a := range c.Common().Args {
									if stripConv(a) == ssa.Value(keyP) {
										return true
									}
								}
							}
						}
					}
				}
			}
			return false
		}
		bad := ""
		nTrue := 0
		for _, b := range fn.Blocks {
			ret, ok := b.Instrs[len(b.Instrs)-1].(*ssa.Return)
			if !ok || len(ret.Results) != 1 {
				continue
			}
			for _, leaf := range phiLeaves(ret.Results[0]) {
				if v, isC := constBool(leaf); isC && !v {
					continue
				}
				nTrue++
				if isByteCompare(leaf) {
					continue
				}
				dom := false
				for _, cf := range dominatingConds(b) {
					if cf.Truth && isByteCompare(cf.If.Cond) {
						dom = true
					}
				}
				if !dom {
					bad = w.InstrPos(ret)
				}
			}
		}
		switch {
		case nTrue == 0:
			r.Unknown(key, w.FnPos(fn), "Contains never returns true")
		case bad != "":
			r.Bad(key, bad, "Contains can answer true without having compared the key's bytes with a stored element")
		default:
			r.OK(key, w.FnPos(fn), fmt.Sprintf("%d true-capable return(s), each behind a byte comparison with the key", nTrue))
		}
	}
	r.Expect("BytesFilter implementations", n, 1)
}

// sameObject: a and b denote the same object up to type assertions and interface conversions.
func sameObject(a, b ssa.Value) bool {
	strip := func(v ssa.Value) ssa.Value {
		for i := 0; i < 6; i++ {
			switch x := v.(type) {
			case *ssa.TypeAssert:
				v = x.X
			case *ssa.MakeInterface:
				v = x.X
			case *ssa.ChangeInterface:
				v = x.X
			case *ssa.Extract:
				if ta, ok := x.Tuple.(*ssa.TypeAssert); ok && x.Index == 0 {
					v = ta.X
				} else {
					return v
				}
			default:
				return v
			}
		}
		return v
	}
	return strip(a) == strip(b)
}

// producedBy: obj is the (type-asserted) result of call c.
func producedBy(obj ssa.Value, c *ssa.Call) bool { return sameObject(obj, c) }
