package main

// ssautil.go — small SSA helpers shared by the rules: dominance by a branch edge,
// comparison normalisation, constant evaluation, operand walks.

import (
	"go/constant"
	"go/token"
	"go/types"

	"golang.org/x/tools/go/ssa"
)

// edgeDominates reports whether every path from the function entry to blk passes through the
// edge from->from.Succs[idx].
func edgeDominates(from *ssa.BasicBlock, idx int, blk *ssa.BasicBlock) bool {
	if idx >= len(from.Succs) {
		return false
	}
	s := from.Succs[idx]
	if len(from.Succs) == 2 && from.Succs[0] == from.Succs[1] {
		return false
	}
	if !s.Dominates(blk) {
		return false
	}
	// s must be entered only through this edge (or through edges from blocks that s itself dominates: loops)
	for _, p := range s.Preds {
		if p == from {
			continue
		}
		if !s.Dominates(p) {
			return false
		}
	}
	return true
}

// CondFact describes a branch condition known to hold at a block.
type CondFact struct {
	If    *ssa.If
	Truth bool      // the condition evaluated to Truth on the dominating edge
	Cond  ssa.Value // for facts collected along a path: the condition with phis resolved along that path (nil otherwise)
}

// C returns the condition the fact is about (resolved along the path when known).
func (cf CondFact) C() ssa.Value {
	if cf.Cond != nil {
		return cf.Cond
	}
	return cf.If.Cond
}

// dominatingConds lists the (If, truth) facts that hold on every path to blk.
func dominatingConds(blk *ssa.BasicBlock) []CondFact {
	var out []CondFact
	for d := blk.Idom(); d != nil; d = d.Idom() {
		if len(d.Instrs) == 0 {
			continue
		}
		iff, ok := d.Instrs[len(d.Instrs)-1].(*ssa.If)
		if !ok {
			continue
		}
		if edgeDominates(d, 0, blk) {
			out = append(out, CondFact{If: iff, Truth: true})
		} else if edgeDominates(d, 1, blk) {
			out = append(out, CondFact{If: iff, Truth: false})
		}
	}
	// the block's own position inside its dominator chain also includes blk's direct single pred
	return out
}

// condAtoms flattens a condition known to be `truth` into atomic facts (v, truth),
// looking through negation. (Short-circuit && / || are already control flow in SSA.)
func condAtoms(v ssa.Value, truth bool) []struct {
	V     ssa.Value
	Truth bool
} {
	type at = struct {
		V     ssa.Value
		Truth bool
	}
	if u, ok := v.(*ssa.UnOp); ok && u.Op == token.NOT {
		return condAtoms(u.X, !truth)
	}
	return []at{{v, truth}}
}

// stripConv looks through value-preserving conversions.
func stripConv(v ssa.Value) ssa.Value {
	for {
		switch x := v.(type) {
		case *ssa.ChangeType:
			v = x.X
		case *ssa.Convert:
			// integer<->integer conversions keep the value for our purposes
			if isInteger(x.Type()) && isInteger(x.X.Type()) {
				v = x.X
			} else {
				return v
			}
		default:
			return v
		}
	}
}

func isNilConst(v ssa.Value) bool {
	c, ok := v.(*ssa.Const)
	return ok && c.IsNil()
}

func constInt(v ssa.Value) (int64, bool) {
	c, ok := stripConv(v).(*ssa.Const)
	if !ok || c.Value == nil {
		return 0, false
	}
	if c.Value.Kind() != constant.Int {
		return 0, false
	}
	i, ok := constant.Int64Val(c.Value)
	return i, ok
}

func constString(v ssa.Value) (string, bool) {
	c, ok := v.(*ssa.Const)
	if !ok || c.Value == nil || c.Value.Kind() != constant.String {
		return "", false
	}
	return constant.StringVal(c.Value), true
}

func constBool(v ssa.Value) (bool, bool) {
	c, ok := v.(*ssa.Const)
	if !ok || c.Value == nil || c.Value.Kind() != constant.Bool {
		return false, false
	}
	return constant.BoolVal(c.Value), true
}

// nilTest: if v is `x == nil` or `x != nil` returns x and whether the test is "is nil".
func nilTest(v ssa.Value) (ssa.Value, bool, bool) {
	b, ok := v.(*ssa.BinOp)
	if !ok || (b.Op != token.EQL && b.Op != token.NEQ) {
		return nil, false, false
	}
	var x ssa.Value
	if isNilConst(b.Y) {
		x = b.X
	} else if isNilConst(b.X) {
		x = b.Y
	} else {
		return nil, false, false
	}
	return x, b.Op == token.EQL, true
}

// sameAddr reports whether two address expressions denote the same location syntactically
// (same field path from the same root value).
func sameAddr(a, b ssa.Value) bool {
	if a == b {
		return true
	}
	switch x := a.(type) {
	case *ssa.FieldAddr:
		y, ok := b.(*ssa.FieldAddr)
		return ok && x.Field == y.Field && sameAddr(x.X, y.X)
	case *ssa.UnOp:
		y, ok := b.(*ssa.UnOp)
		return ok && x.Op == y.Op && sameAddr(x.X, y.X)
	case *ssa.IndexAddr:
		y, ok := b.(*ssa.IndexAddr)
		return ok && sameAddr(x.X, y.X) && sameValue(x.Index, y.Index)
	}
	return false
}

// sameValue: structural equality of pure expressions (go/ssa performs no CSE).
func sameValue(a, b ssa.Value) bool {
	a, b = stripConv(a), stripConv(b)
	if a == b {
		return true
	}
	switch x := a.(type) {
	case *ssa.Const:
		y, ok := b.(*ssa.Const)
		if !ok {
			return false
		}
		if x.Value == nil || y.Value == nil {
			return x.Value == nil && y.Value == nil && types.Identical(x.Type(), y.Type())
		}
		return constant.Compare(x.Value, token.EQL, y.Value)
	case *ssa.BinOp:
		y, ok := b.(*ssa.BinOp)
		return ok && x.Op == y.Op && sameValue(x.X, y.X) && sameValue(x.Y, y.Y)
	case *ssa.UnOp:
		y, ok := b.(*ssa.UnOp)
		if !ok || x.Op != y.Op {
			return false
		}
		if x.Op == token.MUL {
			// loads: equal only if same address and (conservatively) same block with no store between — callers
			// that need this use sameAddr explicitly; here require identical address values.
			return sameAddr(x.X, y.X) && x.Block() == y.Block()
		}
		return sameValue(x.X, y.X)
	case *ssa.FieldAddr, *ssa.IndexAddr:
		return sameAddr(a, b)
	case *ssa.Field:
		y, ok := b.(*ssa.Field)
		return ok && x.Field == y.Field && sameValue(x.X, y.X)
	case *ssa.Slice:
		y, ok := b.(*ssa.Slice)
		return ok && sameValue(x.X, y.X) && sameOpt(x.Low, y.Low) && sameOpt(x.High, y.High) && sameOpt(x.Max, y.Max)
	case *ssa.Call:
		y, ok := b.(*ssa.Call)
		if !ok {
			return false
		}
		// len/cap of the same operand
		bx, ok1 := x.Call.Value.(*ssa.Builtin)
		by, ok2 := y.Call.Value.(*ssa.Builtin)
		if ok1 && ok2 && bx.Name() == by.Name() && (bx.Name() == "len" || bx.Name() == "cap") {
			return sameValue(x.Call.Args[0], y.Call.Args[0])
		}
	}
	return false
}

func sameOpt(a, b ssa.Value) bool {
	if a == nil || b == nil {
		return a == nil && b == nil
	}
	return sameValue(a, b)
}

// isLoadOf reports whether v is `*addr` for an address equal (structurally) to addr.
func isLoadOf(v ssa.Value, addr ssa.Value) bool {
	u, ok := v.(*ssa.UnOp)
	return ok && u.Op == token.MUL && sameAddr(u.X, addr)
}

// builtinName returns the builtin's name if c calls a builtin.
func builtinName(c *ssa.CallCommon) string {
	if b, ok := c.Value.(*ssa.Builtin); ok {
		return b.Name()
	}
	return ""
}

// instrIndex returns the index of ins in its block.
func instrIndex(ins ssa.Instruction) int {
	for i, x := range ins.Block().Instrs {
		if x == ins {
			return i
		}
	}
	return -1
}

// instrDominates: a executes before b on every path reaching b.
func instrDominates(a, b ssa.Instruction) bool {
	if a.Block() == b.Block() {
		return instrIndex(a) < instrIndex(b)
	}
	return a.Block().Dominates(b.Block())
}

// operandsClosure visits the transitive operands of v (bounded).
func operandsClosure(v ssa.Value, visit func(ssa.Value) bool) {
	seen := map[ssa.Value]bool{}
	var rec func(v ssa.Value, d int)
	rec = func(v ssa.Value, d int) {
		if v == nil || seen[v] || d > 60 {
			return
		}
		seen[v] = true
		if !visit(v) {
			return
		}
		if ins, ok := v.(ssa.Instruction); ok {
			for _, op := range ins.Operands(nil) {
				if *op != nil {
					rec(*op, d+1)
				}
			}
		}
	}
	rec(v, 0)
}

// referrersOf returns the instructions using v (nil-safe).
func referrersOf(v ssa.Value) []ssa.Instruction {
	r := v.Referrers()
	if r == nil {
		return nil
	}
	return *r
}

func int64FromConst(v constant.Value) (int64, bool) {
	if v.Kind() != constant.Int {
		return 0, false
	}
	return constant.Int64Val(v)
}

// throughCell resolves a load of a local variable cell that is stored exactly once (the spilled
// receivers and captured variables go/ssa creates) to the stored value.
func throughCell(v ssa.Value) ssa.Value {
	u, ok := v.(*ssa.UnOp)
	if !ok || u.Op != token.MUL {
		return v
	}
	a, ok := u.X.(*ssa.Alloc)
	if !ok {
		return v
	}
	var stored ssa.Value
	n := 0
	for _, ref := range referrersOf(a) {
		if st, ok := ref.(*ssa.Store); ok && st.Addr == ssa.Value(a) {
			stored = st.Val
			n++
		}
	}
	if n == 1 {
		return stored
	}
	return v
}
