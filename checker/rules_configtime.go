package main

// rules_configtime.go — C06-G: configuration-time code (constructors and option constructors) writes no package-level
// memory.

import (
	"fmt"
	"sort"
	"strings"

	"golang.org/x/tools/go/ssa"
)

// configTimeReviewed: registries that exist to be written from package initialisers.
var configTimeReviewed = map[string]string{
	"ast.NewNodeKind":      "the node-kind registry: called from package-level variable initialisers, one id per kind; C07-I checks that no per-call code reaches it",
	"parser.NewContextKey": "the context-key registry: called from package-level variable initialisers; C07-I checks that no per-call code reaches it",
}

// returnsGlobalRooted: some return value of the called module function is (a slice of, an element of, a load of) a
// package-level variable.
func (w *World) returnsGlobalRooted(c *ssa.Call) *ssa.Global {
	cal := c.Common().StaticCallee()
	if cal == nil || cal.Blocks == nil || !w.InModule(cal) {
		return nil
	}
	for _, b := range cal.Blocks {
		ret, ok := b.Instrs[len(b.Instrs)-1].(*ssa.Return)
		if !ok || len(ret.Results) == 0 {
			continue
		}
		for _, leaf := range phiLeaves(ret.Results[0]) {
			v := leaf
			for i := 0; i < 8; i++ {
				switch x := v.(type) {
				case *ssa.Slice:
					v = x.X
				case *ssa.UnOp:
					v = x.X
				case *ssa.FieldAddr:
					v = x.X
				case *ssa.IndexAddr:
					v = x.X
				case *ssa.ChangeType:
					v = x.X
				case *ssa.Convert:
					v = x.X
				}
			}
			if g, ok := v.(*ssa.Global); ok {
				return g
			}
		}
	}
	return nil
}

func ruleConfigTimeWritesNoGlobals(w *World, r *Report) {
	r.Rule("C06-G", "The effect rules C06-S/C07-S start from Parse, Render and Convert. This rule covers what runs before: every module function named New… or With… (constructors and functional-option constructors), the closures they create and the module functions those call statically. None of their stores, map updates, appends or copies targets memory rooted at a package-level variable. A default table kept in a package-level slice and handed out un-copied is rewritten by the next caller that customises it: every instance built from the defaults — existing or future — then renders differently.")
	seen := map[*ssa.Function]bool{}
	var work []*ssa.Function
	for _, fn := range w.Funcs {
		if fn.Synthetic == "" && fn.Parent() == nil && (strings.HasPrefix(fn.Name(), "New") || strings.HasPrefix(fn.Name(), "With")) {
			work = append(work, fn)
		}
	}
	roots := len(work)
	var fns []*ssa.Function
	for len(work) > 0 {
		fn := work[len(work)-1]
		work = work[:len(work)-1]
		if seen[fn] || fn.Blocks == nil || !w.InModule(fn) || fn.Name() == "init" {
			continue
		}
		seen[fn] = true
		fns = append(fns, fn)
		work = append(work, fn.AnonFuncs...)
		for _, b := range fn.Blocks {
			for _, ins := range b.Instrs {
				if c, ok := ins.(ssa.CallInstruction); ok {
					if cal := c.Common().StaticCallee(); cal != nil {
						work = append(work, cal)
					}
				}
			}
		}
	}
	sort.Slice(fns, func(i, j int) bool { return fns[i].String() < fns[j].String() })
	nw, bad := 0, 0
	for _, fn := range fns {
		if _, once := w.CG().OnceClosures[fn]; once {
			continue
		}
		for _, wr := range WritesOf(fn) {
			info := w.ClassifyRef(wr.Addr)
			if info.Class == MemLocal {
				continue
			}
			nw++
			rootsOf := info.Roots
			// a value handed out by a module function: where does that function take it from?
			for _, root := range info.Roots {
				if c, ok := root.(*ssa.Call); ok {
					if g := w.returnsGlobalRooted(c); g != nil {
						rootsOf = append(rootsOf, g)
					}
				}
			}
			for _, root := range rootsOf {
				if g, ok := root.(*ssa.Global); ok {
					if why, ok := configTimeReviewed[w.FnKey(fn)]; ok {
						r.OK(fmt.Sprintf("%s: %s into %s", w.FnKey(fn), wr.Kind, g.Name()), w.InstrPos(wr.Instr), "reviewed exception: "+why)
						continue
					}
					bad++
					r.Bad(fmt.Sprintf("%s: %s into %s", w.FnKey(fn), wr.Kind, g.Name()), w.InstrPos(wr.Instr), fmt.Sprintf("configuration-time code writes memory rooted at the package-level variable %s (%s): the change is seen by every other instance", g.Name(), info.Why))
				}
			}
		}
	}
	r.Expect("constructors and option constructors", roots, 40)
	if bad == 0 {
		r.OK("no configuration-time write into package-level memory", "", fmt.Sprintf("%d functions, %d non-local writes examined", len(fns), nw))
	}
}
