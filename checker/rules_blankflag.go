package main

// rules_blankflag.go — C02-B: a block that takes another block's place keeps the "preceded by a blank line" flag, which
// is what the tight/loose decision of the enclosing list reads.

import (
	"fmt"
	"go/types"

	"golang.org/x/tools/go/ssa"
)

// nodeRoot strips what go/ssa puts between a node variable and a method call on it: interface conversions, type
// assertions, addresses of embedded structs.
func nodeRoot(v ssa.Value) ssa.Value {
	for {
		switch x := v.(type) {
		case *ssa.MakeInterface:
			v = x.X
		case *ssa.ChangeInterface:
			v = x.X
		case *ssa.ChangeType:
			v = x.X
		case *ssa.TypeAssert:
			v = x.X
		case *ssa.FieldAddr:
			v = x.X
		case *ssa.Extract:
			if ta, ok := x.Tuple.(*ssa.TypeAssert); ok && x.Index == 0 {
				v = ta.X
			} else {
				return v
			}
		default:
			return v
		}
	}
}

// methodCallOn: if c is a call of method `name` (interface invoke or static call of a method, promoted or not), returns
// the receiver root and the remaining arguments.
func methodCallOn(c ssa.CallInstruction, name string) (ssa.Value, []ssa.Value, bool) {
	com := c.Common()
	if com.IsInvoke() {
		if com.Method.Name() != name {
			return nil, nil, false
		}
		return nodeRoot(com.Value), com.Args, true
	}
	cal := com.StaticCallee()
	if cal == nil || cal.Name() != name || cal.Signature.Recv() == nil || len(com.Args) == 0 {
		return nil, nil, false
	}
	return nodeRoot(com.Args[0]), com.Args[1:], true
}

func ruleBlankFlagCarriedOver(w *World, r *Report) {
	r.Rule("C02-B", "In package parser, wherever a block node X takes the place of another block node Y — X.SetLines(Y.Lines()) for a different node, or ReplaceChild(_, Y, X) with a newly built X — the same function also calls X.SetBlankPreviousLines(Y.HasBlankPreviousLines()). The flag is what the enclosing list's tight/loose decision reads, so a Setext heading or an emptied paragraph that loses it renders a loose list tight while the ATX spelling of the same document stays loose. Exempt: the function that consumes the flag (it stores List.IsTight; its replacements happen after the decision).")
	n := 0
	for _, fn := range w.Funcs {
		if fn.Pkg == nil || fn.Pkg.Pkg != w.TPkg("parser") {
			continue
		}
		consumer := false
		type pair struct {
			x, y   ssa.Value
			xv, yv ssa.Value // as written (before stripping), for the static types
			at     ssa.Instruction
			how    string
		}
		var pairs []pair
		type carry struct{ x, y ssa.Value }
		var carries []carry
		for _, b := range fn.Blocks {
			for _, ins := range b.Instrs {
				if st, ok := ins.(*ssa.Store); ok {
					if fa, ok := st.Addr.(*ssa.FieldAddr); ok {
						if _, f := fieldOfAddr(fa); f != nil && f.Name() == "IsTight" {
							consumer = true
						}
					}
				}
				c, ok := ins.(ssa.CallInstruction)
				if !ok {
					continue
				}
				if x, args, ok := methodCallOn(c, "SetLines"); ok && len(args) == 1 {
					if lc, ok := args[0].(*ssa.Call); ok {
						if y, _, ok := methodCallOn(lc, "Lines"); ok && y != x {
							pairs = append(pairs, pair{x, y, recvAsWritten(c), recvAsWritten(lc), ins, "SetLines(other.Lines())"})
						}
					}
				}
				if _, args, ok := methodCallOn(c, "ReplaceChild"); ok && len(args) == 3 {
					pairs = append(pairs, pair{nodeRoot(args[2]), nodeRoot(args[1]), args[2], args[1], ins, "ReplaceChild"})
				}
				if x, args, ok := methodCallOn(c, "SetBlankPreviousLines"); ok && len(args) == 1 {
					if hc, ok := args[0].(*ssa.Call); ok {
						if y, _, ok := methodCallOn(hc, "HasBlankPreviousLines"); ok {
							carries = append(carries, carry{x, y})
						}
					}
				}
			}
		}
		if consumer || w.onlyCalledByBlankFlagConsumers(fn, 0) {
			continue
		}
		for _, p := range pairs {
			// only block nodes have the flag: both must be known to be block nodes (a struct embedding ast.BaseBlock)
			if !w.isBlockNodeValue(p.xv) || !w.isBlockNodeValue(p.yv) {
				continue
			}
			n++
			key := fmt.Sprintf("%s: %s keeps the blank-line flag", w.FnKey(fn), p.how)
			ok := false
			for _, c := range carries {
				if c.x == p.x && c.y == p.y {
					ok = true
				}
			}
			if ok {
				r.OK(key, w.InstrPos(p.at), "SetBlankPreviousLines(replaced.HasBlankPreviousLines()) on the replacing node in the same function")
			} else {
				r.Bad(key, w.InstrPos(p.at), "a block takes another block's place without taking over HasBlankPreviousLines: the enclosing list's tight/loose decision no longer sees the blank line before it")
			}
		}
	}
	r.Expect("block replacements in package parser", n, 1)
}

func recvAsWritten(c ssa.CallInstruction) ssa.Value {
	com := c.Common()
	if com.IsInvoke() {
		return com.Value
	}
	if len(com.Args) > 0 {
		return com.Args[0]
	}
	return nil
}

// isBlockNodeValue: somewhere on the way from the value as written to its root the static type is (a pointer to) a
// module struct that embeds ast.BaseBlock.
func (w *World) isBlockNodeValue(v ssa.Value) bool {
	bb := w.Named("ast", "BaseBlock")
	var embeds func(t types.Type, d int) bool
	embeds = func(t types.Type, d int) bool {
		n := namedOf(t)
		if n == nil || d > 4 {
			return false
		}
		if bb != nil && n.Obj() == bb.Obj() {
			return true
		}
		st, ok := n.Underlying().(*types.Struct)
		if !ok {
			return false
		}
		for i := 0; i < st.NumFields(); i++ {
			if st.Field(i).Embedded() && embeds(st.Field(i).Type(), d+1) {
				return true
			}
		}
		return false
	}
	for i := 0; i < 12 && v != nil; i++ {
		if embeds(v.Type(), 0) {
			return true
		}
		switch x := v.(type) {
		case *ssa.MakeInterface:
			v = x.X
		case *ssa.ChangeInterface:
			v = x.X
		case *ssa.ChangeType:
			v = x.X
		case *ssa.TypeAssert:
			v = x.X
		case *ssa.FieldAddr:
			v = x.X
		default:
			return false
		}
	}
	return false
}

func hasMethod(t types.Type, name string) bool { return hasMethodT(t, name) }

func hasMethodT(t interface{}, name string) bool {
	ty, ok := t.(types.Type)
	if !ok {
		return false
	}
	for _, cand := range []types.Type{ty, types.NewPointer(ty)} {
		ms := types.NewMethodSet(cand)
		for i := 0; i < ms.Len(); i++ {
			if ms.At(i).Obj().Name() == name {
				return true
			}
		}
	}
	return false
}

// onlyCalledByBlankFlagConsumers: every module caller of fn is the consumer of the flag (stores List.IsTight) or is
// itself only called by consumers — a helper carved out of the consumer runs after the decision, like the code it
// was carved from.
func (w *World) onlyCalledByBlankFlagConsumers(fn *ssa.Function, depth int) bool {
	if depth > 3 {
		return false
	}
	callers := w.CG().In[fn]
	n := 0
	for _, c := range callers {
		if !w.InModule(c) {
			continue
		}
		n++
		stores := false
		for _, b := range c.Blocks {
			for _, ins := range b.Instrs {
				if st, ok := ins.(*ssa.Store); ok {
					if fa, ok := st.Addr.(*ssa.FieldAddr); ok {
						if _, f := fieldOfAddr(fa); f != nil && f.Name() == "IsTight" {
							stores = true
						}
					}
				}
			}
		}
		if !stores && !w.onlyCalledByBlankFlagConsumers(c, depth+1) {
			return false
		}
	}
	return n > 0
}
